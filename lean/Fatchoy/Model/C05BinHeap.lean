/-
Structural model of the binary heap of sched.TimerQueue: Go's `container/heap` (`up`, `down`, `Init`, `Push`,
`Pop`, `Remove`, `Fix`; $GOROOT/src/container/heap/heap.go) composed with the methods of `timerHeap`
(sched/timerqueue.go: `Len`, `Less` = deadline ascending then id DESCENDING, `Swap` maintaining `index`, `Push`
setting `index`, `Pop` setting `index` to -1), statement for statement, on an ARRAY of nodes.  Core-only.

The loops of `up` / `down` are well-founded recursions (`termination_by`: the termination proof is part of the
definition).  Every place the Go code would panic (index out of range) is the outcome `none`.  `down`'s overflow
guard `j1 < 0` has no counterpart (indices are naturals).  A node is the sorted-list model's `HNode` plus the `index`
field; `BS` is the heap scheduler `HS` of Model/C05Sched.lean with the array in place of the sorted list.
-/
import Fatchoy.Model.C05Sched
namespace Fatchoy.C05

instance : Inhabited HNode := ⟨⟨0, 0, 0⟩⟩

/-- `*timerNode` as far as the heap is concerned: id, deadline, period and the `index` field -/
structure BNode where
  n : HNode
  index : Int
deriving DecidableEq, Repr, Inhabited

/-- `timerHeap` -/
abbrev BHeap := Array BNode

/-- `timerHeap.Swap(i, j)`: `q[i], q[j] = q[j], q[i]; q[i].index = i; q[j].index = j` -/
def bswap (a : BHeap) (i j : Nat) (hi : i < a.size) (hj : j < a.size) : BHeap :=
  let a1 := a.swap i j
  let a2 := a1.set i { a1[i]'(by simp [a1]; omega) with index := i } (by simp [a1]; omega)
  a2.set j { a2[j]'(by simp [a2, a1]; omega) with index := j } (by simp [a2, a1]; omega)

@[simp] theorem size_bswap (a : BHeap) (i j : Nat) (hi : i < a.size) (hj : j < a.size) : (bswap a i j hi hj).size = a.size := by
  simp [bswap]

/-- `heap.up(h, j)` with `h.Less(j, i)` = `hless a[j] a[i]` -/
def bup (a : BHeap) (j : Nat) (hj : j < a.size) : BHeap :=
  let i := (j - 1) / 2 -- parent
  if h : i = j ∨ ¬ hless (a[j]).n (a[i]'(by omega)).n then a
  else bup (bswap a i j (by omega) hj) i (by simp; omega)
termination_by j
decreasing_by omega

/-- the child `down` compares with its parent: `j := j1; if j2 := j1 + 1; j2 < n && h.Less(j2, j1) { j = j2 }` -/
def bchild (a : BHeap) (j1 n : Nat) (_h1 : j1 < n) (hn : n ≤ a.size) : Nat :=
  if h2 : j1 + 1 < n then (if hless (a[j1 + 1]'(by omega)).n (a[j1]'(by omega)).n then j1 + 1 else j1) else j1

theorem bchild_lt (a : BHeap) (j1 n : Nat) (h1 : j1 < n) (hn : n ≤ a.size) : bchild a j1 n h1 hn < n := by
  unfold bchild; split
  · split <;> omega
  · omega

theorem bchild_ge (a : BHeap) (j1 n : Nat) (h1 : j1 < n) (hn : n ≤ a.size) : j1 ≤ bchild a j1 n h1 hn := by
  unfold bchild; split
  · split <;> omega
  · omega

/-- `heap.down(h, i0, n)`: the array after the loop and the final value of `i` (the Go function returns `i > i0`) -/
def bdown (a : BHeap) (i n : Nat) (hn : n ≤ a.size) : BHeap × Nat :=
  let j1 := 2 * i + 1
  if h1 : j1 ≥ n then (a, i)
  else
    let j := bchild a j1 n (by omega) hn
    have hj : j < n := bchild_lt ..
    if ¬ hless (a[j]'(by omega)).n (a[i]'(by omega)).n then (a, i)
    else bdown (bswap a i j (by omega) (by omega)) j n (by simp; omega)
termination_by n - i
decreasing_by
  have := bchild_ge a (2 * i + 1) n (by omega) hn
  have := bchild_lt a (2 * i + 1) n (by omega) hn
  omega

theorem bdown_size (a : BHeap) (i n : Nat) (hn : n ≤ a.size) : (bdown a i n hn).1.size = a.size := by
  fun_induction bdown a i n hn <;> simp_all

/-- `heap.Init`: `for i := n/2 - 1; i >= 0; i-- { down(h, i, n) }` (`k` = i + 1) -/
def binitLoop (a : BHeap) : Nat → BHeap
  | 0 => a
  | k + 1 => binitLoop (bdown a k a.size (Nat.le_refl _)).1 k

def binit (a : BHeap) : BHeap := binitLoop a (a.size / 2)

/-- `heap.Push(h, x)`: `timerHeap.Push` (`v.index = len(*q); *q = append(*q, v)`), then `up(h, h.Len()-1)` -/
def bpush (a : BHeap) (x : HNode) : BHeap :=
  bup (a.push ⟨x, a.size⟩) a.size (by simp)

/-- `timerHeap.Pop`: `nil` on the empty heap, else the last node with `index = -1` and the shortened array -/
def bpopLast (a : BHeap) : Option (BHeap × BNode) :=
  if h : a.size = 0 then none else some (a.pop, { a[a.size - 1] with index := -1 })

/-- `heap.Pop(h)`: `n := h.Len()-1; h.Swap(0, n); down(h, 0, n); return h.Pop()`.  `none`: `Swap(0, -1)` panics -/
def bpop (a : BHeap) : Option (BHeap × BNode) :=
  if h : a.size = 0 then none else
  let n := a.size - 1
  let a1 := bswap a 0 n (by omega) (by omega)
  bpopLast (bdown a1 0 n (by simp [a1]; omega)).1

/-- `heap.Remove(h, i)`: `n := h.Len()-1; if n != i { h.Swap(i, n); if !down(h, i, n) { up(h, i) } }; return h.Pop()`.
`none`: `i` out of range, `Swap` panics (for `i = n` on the empty heap `timerHeap.Pop` returns nil: also `none`) -/
def bremove (a : BHeap) (i : Nat) : Option (BHeap × BNode) :=
  if h : i < a.size then
    let n := a.size - 1
    if hn : n = i then bpopLast a
    else
      let a1 := bswap a i n h (by omega)
      let d := bdown a1 i n (by simp [a1]; omega)
      if d.2 > i then bpopLast d.1
      else bpopLast (bup d.1 i (by
        have : d.1.size = a.size := by
          simp only [d, bdown_size, a1, size_bswap]
        omega))
  else none

/-- `heap.Fix(h, i)`: `if !down(h, i, h.Len()) { up(h, i) }`.  `none`: `i ≥ Len`, `up` panics in `Less` -/
def bfix (a : BHeap) (i : Nat) : Option BHeap :=
  if h : i < a.size then
    let d := bdown a i a.size (Nat.le_refl _)
    if d.2 > i then some d.1
    else some (bup d.1 i (by rw [bdown_size]; exact h))
  else none

/-- `node.deadline = d` for the node at array position `i` -/
def bsetDeadline (a : BHeap) (i d : Nat) : BHeap :=
  if h : i < a.size then a.set i { a[i] with n := { a[i].n with deadline := d } } else a

/-- the heap scheduler over the array -/
structure BS where
  now : Nat
  arr : BHeap
  f : Front
deriving Repr

namespace BS

def init (time : Nat) : BS := { now := time, arr := #[], f := Front.init }

/-- one pass of the loop of `trigger(now)` -/
inductive TrigOne
  /-- `break`: heap empty or the root is not due -/
  | stop
  /-- the `continue` on `node.id > maxId`: spins forever -/
  | spin
  /-- container/heap panics (unreachable under the index invariant) -/
  | panic
  /-- one node handled; `fired`: appended to `expires` -/
  | cont (s : BS) (fired : Option (Nat × Nat))

def trigOne (now maxId : Nat) (s : BS) : TrigOne :=
  if h : s.arr.size = 0 then .stop else
  let node := s.arr[0]
  if now < node.n.deadline then .stop
  else if node.n.id > maxId then .spin
  else if node.n.id ∈ s.f.cancelled then
    match bpop s.arr with
    | some (a', _) => .cont { s with arr := a' } none
    | none => .panic
  else if node.n.period > 0 then
    -- node.deadline = now + node.period; heap.Fix(&s.timers, node.index)
    if node.index < 0 then .cont { s with arr := bsetDeadline s.arr 0 (now + node.n.period) } (some (node.n.id, node.n.deadline))
    else match bfix (bsetDeadline s.arr 0 (now + node.n.period)) node.index.toNat with
      | some a' => .cont { s with arr := a' } (some (node.n.id, node.n.deadline))
      | none => .panic
  else
    match bpop s.arr with
    | some (a', _) => .cont { s with arr := a', f := s.f.drop node.n.id } (some (node.n.id, node.n.deadline))
    | none => .panic

def triggerLoop (now maxId : Nat) : Nat → BS → List (Nat × Nat) → Option (BS × List (Nat × Nat))
  | 0, _, _ => none
  | fuel + 1, s, acc =>
    match trigOne now maxId s with
    | .stop => some (s, acc)
    | .spin => none
    | .panic => none
    | .cont s' fired => triggerLoop now maxId fuel s' (acc ++ fired.toList)

def tick (s : BS) : Option BS :=
  match triggerLoop s.now s.f.nextId (s.arr.size + 1) s [] with
  | some (s', ids) => some { s' with f := HS.logAll s'.f s.now ids }
  | none => none

/-- `delNode(node)` for the node with this id: `if node.index >= 0 { heap.Remove(&s.timers, node.index) }`; a node
that is not in the array (never pushed, or popped) has index -1 -/
def delNode (a : BHeap) (id : Nat) : Option BHeap :=
  match a.find? (fun x => x.n.id == id) with
  | none => some a
  | some x => if x.index < 0 then some a else (bremove a x.index.toNat).map (·.1)

def step (G : Geom) (s : BS) : Act → Res BS
  | .after d =>
    if s.f.addQ.length ≥ G.reqCap then .blocked
    else let id := nextID s.f; .ok { s with f := s.f.start id (s.now + d) 0 } (.id id)
  | .every p =>
    if s.f.addQ.length ≥ G.reqCap then .blocked
    else let id := nextID s.f; .ok { s with f := s.f.start id (s.now + p) p } (.id id)
  | .cancel id =>
    if id ∈ s.f.refer then
      if s.f.delQ.length ≥ G.reqCap then .blocked else .ok { s with f := s.f.cancel id } (.bool true)
    else .ok s (.bool false)
  | .add =>
    match s.f.addQ with
    | [] => .ok s .idle
    | r :: q =>
      let f' := { s.f with addQ := q }
      if r.id ∈ s.f.cancelled then .ok { s with f := f' } .done
      else .ok { s with arr := bpush s.arr ⟨r.id, r.dl, r.period⟩, f := f' } .done
  | .del =>
    match s.f.delQ with
    | [] => .ok s .idle
    | id :: q =>
      match delNode s.arr id with
      | some a' => .ok { s with arr := a', f := { s.f with delQ := q } } .done
      | none => .panic
  | .tick =>
    match tick s with
    | some s' => .ok s' .done
    | none => .panic
  | .clock n => .ok { s with now := s.now + n } .done

end BS

/-! ### the source texts this model was written from (compared with the regenerated Gen/C05.lean by `C05_binheap_source`) -/

/-- container/heap: Init, Push, Pop, Remove, Fix, up, down -/
def heapSrcGo : List String := [
  "{ n := h.Len() for i := n/2 - 1; i >= 0; i-- { down(h, i, n) } }",
  "{ h.Push(x) up(h, h.Len()-1) }",
  "{ n := h.Len() - 1 h.Swap(0, n) down(h, 0, n) return h.Pop() }",
  "{ n := h.Len() - 1 if n != i { h.Swap(i, n) if !down(h, i, n) { up(h, i) } } return h.Pop() }",
  "{ if !down(h, i, h.Len()) { up(h, i) } }",
  "{ for { i := (j - 1) / 2 if i == j || !h.Less(j, i) { break } h.Swap(i, j) j = i } }",
  "{ i := i0 for { j1 := 2*i + 1 if j1 >= n || j1 < 0 { break } j := j1 if j2 := j1 + 1; j2 < n && h.Less(j2, j1) { j = j2 } if !h.Less(j, i) { break } h.Swap(i, j) i = j } return i > i0 }"]

/-- sched/timerqueue.go: timerHeap.Len, Less, Swap, Push, Pop and TimerQueue.delNode (alpha-normalised: _r receiver, _pN parameters, _vN locals) -/
def heapSrcRepo : List String := [
  "{ return len(_r) }",
  "{ if _r[_p0].deadline == _r[_p1].deadline { return _r[_p0].id > _r[_p1].id } return _r[_p0].deadline < _r[_p1].deadline }",
  "{ _r[_p0], _r[_p1] = _r[_p1], _r[_p0] _r[_p0].index = _p0 _r[_p1].index = _p1 }",
  "{ _v0 := _p0.(*timerNode) _v0.index = len(*_r) *_r = append(*_r, _v0) }",
  "{ _v0 := *_r _v1 := len(_v0) if _v1 > 0 { _v2 := _v0[_v1-1] _v2.index = -1 *_r = _v0[:_v1-1] return _v2 } return nil }",
  "{ if _p0.index >= 0 { heap.Remove(&_r.timers, _p0.index) } }"]

/-- the five `heap.*` call sites of timerqueue.go: `BS.step .add`, `BS.delNode`, and the three branches of `BS.trigOne` -/
def heapSites : List String := ["addNode:Push(&_r.timers,_p0)", "delNode:Remove(&_r.timers,_p0.index)", "trigger:Pop(&_r.timers)", "trigger:Fix(&_r.timers,_v0.index)", "trigger:Pop(&_r.timers)"]

end Fatchoy.C05
