/-
Model of the packet value layer (C07): /repo/packet/packet.go (New, Errno, SetErrno, ReplyWith, Reply,
Refuse, RefuseWith), /repo/packet/packet_encode.go (SetBody, BodyToInt/Float/String/Bytes,
encodeInt64/encodeUint64) and the receiver's last step in /repo/codec/marshal.go
(unmarshalPacketBody: error flag → varint → SetBody) behind the codecs' `len(body) > 0` guard.
Core-only. Integers are `BitVec`s of their Go width (two's complement), floats are IEEE-754 bit
patterns, strings and byte slices are `List UInt8`. Every place the Go code panics is `Res.panic`;
conversions the model does not compute (strconv float formatting/parsing, int↔float rounding,
protobuf) are `Res.unmodelled` — never a made-up value.
-/
import Fatchoy.Gen.C07
import Fatchoy.Model.Varint
namespace Fatchoy.C07
open Fatchoy.Varint

abbrev Bytes := List UInt8

/-- a Go value as it can sit in the `interface{}` body (or be handed to `SetBody`) -/
inductive GoVal where
  | nil
  | bool (b : Bool)
  /-- Go's `int`, as the 64-bit sign extension of its 32- or 64-bit value (`GoVal.inWord`) -/
  | int (v : BitVec 64)
  | i8 (v : BitVec 8) | i16 (v : BitVec 16) | i32 (v : BitVec 32) | i64 (v : BitVec 64)
  /-- Go's `uint`, zero-extended to 64 bits -/
  | uint (v : BitVec 64)
  | u8 (v : BitVec 8) | u16 (v : BitVec 16) | u32 (v : BitVec 32) | u64 (v : BitVec 64)
  | f32 (bits : BitVec 32) | f64 (bits : BitVec 64)
  | str (s : Bytes) | bytes (b : Bytes)
  /-- some `proto.Message` (opaque) -/
  | msg
  /-- a value of a type `SetBody` does not accept (struct, chan, complex, …) -/
  | unsupported
deriving DecidableEq, Repr

inductive Res (α : Type) where
  | ok (a : α)
  | panic
  | unmodelled
deriving DecidableEq, Repr

structure Params where
  /-- `PFlagError`, `PFlagCompressed`, `PFlagEncrypted` -/
  errFlag : Nat
  compressedFlag : Nat
  encryptedFlag : Nat
  /-- `PTypePacket` -/
  ptypePacket : Nat
  /-- bits of `int`/`uint` on the build under test (32 on GOARCH=386, 64 on amd64/arm64): the value
  domain of the `int`/`uint` kinds (`GoVal.inWord`); the conversions themselves are `int64(v)` either way -/
  intSize : Nat
  /-- `float64(f)` of a NaN float32 yields the canonical quiet NaN 0x7ff8000000000000 (what the gc
  compiler's 386 back end produces) instead of keeping sign and payload (amd64/arm64 hardware).
  Go leaves NaN conversion unspecified; the property only needs NaN ↦ NaN. -/
  canonNaN : Bool
  /-- base handed to `strconv.FormatInt` by `BodyToString` -/
  fmtBase : Nat
  /-- base and bit size handed to `strconv.ParseInt` by `BodyToInt` -/
  parseBase : Nat
  parseBits : Nat
  /-- lengths of the scratch arrays of `encodeInt64` / `encodeUint64` -/
  varintBuf : Nat
  uvarintBuf : Nat
  /-- `BodyToBytes` has a `case nil` -/
  bytesHasNil : Bool
  /-- `Errno` reads the int64 body (otherwise: it returns the command) -/
  errnoFromBody : Bool
deriving Repr, DecidableEq

/-- parameters regenerated from the source on every run -/
def params : Params :=
  { errFlag := Gen.C07.pflagError, compressedFlag := Gen.C07.pflagCompressed,
    encryptedFlag := Gen.C07.pflagEncrypted, ptypePacket := Gen.C07.ptypePacket,
    intSize := Gen.C07.intSize, canonNaN := false, fmtBase := Gen.C07.formatIntBase,
    parseBase := Gen.C07.parseIntBase, parseBits := Gen.C07.parseIntBits,
    varintBuf := Gen.C07.encodeInt64BufLen, uvarintBuf := Gen.C07.encodeUint64BufLen,
    bytesHasNil := Gen.C07.bodyToBytesHasNil, errnoFromBody := Gen.C07.errnoFromBody }

/-- the parameters for a build of the given word size and NaN convention (announced by the harness
in the first line of the op stream); everything read from the source stays as regenerated -/
def archParams (bits : Nat) (canon : Bool) : Params := { params with intSize := bits, canonNaN := canon }

/-! ### float32 → float64 -/

/-- index of the highest set bit (0 for 0 and 1); `fuel` ≥ number of bits -/
def topBit : Nat → Nat → Nat
  | 0, _ => 0
  | fuel + 1, m => if m < 2 then 0 else topBit fuel (m / 2) + 1

/-- `float64(f)` for the float32 with bits `b` (CVTSS2SD / FCVT): exact for every finite value and
±Inf; a NaN keeps sign and payload and becomes quiet. -/
def widen (b : BitVec 32) : BitVec 64 :=
  let n := b.toNat
  let sign := n / 2 ^ 31
  let e := n / 2 ^ 23 % 256
  let m := n % 2 ^ 23
  let em : Nat × Nat :=
    if e = 255 then (2047, if m = 0 then 0 else m * 2 ^ 29 ||| 2 ^ 51)
    else if e = 0 then
      if m = 0 then (0, 0)
      else let k := topBit 23 m; (k + 874, (m - 2 ^ k) * 2 ^ (52 - k))
    else (e + 896, m * 2 ^ 29)
  BitVec.ofNat 64 (sign * 2 ^ 63 + em.1 * 2 ^ 52 + em.2)

/-- the canonical quiet NaN -/
def canonNaN64 : BitVec 64 := 0x7ff8000000000000#64

def isNaN32 (b : BitVec 32) : Bool := b.toNat / 2 ^ 23 % 256 = 255 ∧ b.toNat % 2 ^ 23 ≠ 0

/-- `float64(f)` on a build with the given NaN convention: identical to `widen` except that with
`canon` every NaN becomes the one canonical quiet NaN -/
def widenOn (canon : Bool) (b : BitVec 32) : BitVec 64 :=
  if canon && isNaN32 b then canonNaN64 else widen b

/-- the values of the word-sized kinds on a build with `bits`-bit `int`/`uint`: an `int` travels
sign-extended to 64 bits, a `uint` zero-extended; every other kind is unconstrained -/
def GoVal.inWord (bits : Nat) : GoVal → Bool
  | .int v => decide (-(2 ^ (bits - 1) : Int) ≤ v.toInt ∧ v.toInt < (2 ^ (bits - 1) : Int))
  | .uint v => decide (v.toNat < 2 ^ bits)
  | _ => true

/-! ### SetBody -/

/-- `SetBody(val)`: every integer kind and bool become int64 (`int64(v)`: sign extension for the
signed kinds — `int` included, whatever its width — zero extension for the unsigned ones), float32
becomes float64 -/
def setBody (P : Params) (v : GoVal) : Res GoVal :=
  match v with
  | .int x => .ok (.i64 x)
  | .uint x => .ok (.i64 x)
  | .i8 x => .ok (.i64 (x.signExtend 64))
  | .i16 x => .ok (.i64 (x.signExtend 64))
  | .i32 x => .ok (.i64 (x.signExtend 64))
  | .u8 x => .ok (.i64 (x.setWidth 64))
  | .u16 x => .ok (.i64 (x.setWidth 64))
  | .u32 x => .ok (.i64 (x.setWidth 64))
  | .u64 x => .ok (.i64 x)
  | .f32 b => .ok (.f64 (widenOn P.canonNaN b))
  | .nil => .ok .nil
  | .bool b => .ok (.i64 (if b then 1 else 0))
  | .i64 x => .ok (.i64 x)
  | .f64 b => .ok (.f64 b)
  | .str s => .ok (.str s)
  | .bytes b => .ok (.bytes b)
  | .msg => .ok .msg
  | .unsupported => .panic

/-! ### strconv, as far as modelled -/

/-- `binary.LittleEndian.Uint<8n>` -/
def getLE : Bytes → Nat
  | [] => 0
  | b :: bs => b.toNat + 256 * getLE bs

def parseDigits : Bytes → Nat → Option Nat
  | [], acc => some acc
  | c :: cs, acc =>
    if 48 ≤ c.toNat ∧ c.toNat ≤ 57 then parseDigits cs (acc * 10 + (c.toNat - 48)) else none

/-- the digits after the optional sign: at least one, all decimal, magnitude within int64 -/
def parseMag (neg : Bool) (ds : Bytes) : Option (BitVec 64) :=
  match ds with
  | [] => none
  | _ =>
    match parseDigits ds 0 with
    | none => none
    | some n =>
      if neg then (if n ≤ 2 ^ 63 then some (BitVec.ofInt 64 (-(n : Int))) else none)
      else (if n < 2 ^ 63 then some (BitVec.ofNat 64 n) else none)

/-- `strconv.ParseInt(s, 10, 64)`; `none` = any error (syntax or range). One optional `+`/`-`. -/
def parseInt (s : Bytes) : Option (BitVec 64) :=
  match s with
  | [] => none
  | c :: r =>
    if c.toNat = 43 then parseMag false r
    else if c.toNat = 45 then parseMag true r
    else parseMag false (c :: r)

/-- digit characters of strconv: `0-9a-z` -/
def digitChar (d : Nat) : UInt8 := if d < 10 then UInt8.ofNat (48 + d) else UInt8.ofNat (87 + d)

/-- `strconv.FormatUint(n, base)` for `2 ≤ base` (the guard `base < 2` only makes the recursion total;
`bodyToString` panics before it can be reached) -/
def fmtNat (base : Nat) (n : Nat) : Bytes :=
  if _h : n < base ∨ base < 2 then [digitChar n] else fmtNat base (n / base) ++ [digitChar (n % base)]
decreasing_by exact Nat.div_lt_self (by omega) (by omega)

/-- `strconv.FormatInt(v, base)` -/
def formatInt (base : Nat) (v : Int) : Bytes :=
  if v < 0 then 45 :: fmtNat base v.natAbs else fmtNat base v.natAbs

/-- what `BodyToString` returns: literal bytes, or `strconv.FormatFloat(f, 'g', -1, 64)` of the
float with the given bits, which the model does not compute -/
inductive Text where
  | lit (s : Bytes)
  | fmtFloat (bits : BitVec 64)
deriving DecidableEq, Repr

/-- `<nil>` — `fmt.Sprintf("%v", nil)` -/
def nilText : Bytes := [60, 110, 105, 108, 62]

/-! ### the typed views of the body -/

/-- `BodyToInt()` -/
def bodyToInt (P : Params) (b : GoVal) : Res (BitVec 64) :=
  match b with
  | .i64 v => .ok v
  | .f64 _ => .unmodelled  -- int64(float64): truncation, platform-defined out of range
  | .str s =>
    if P.parseBase = 10 ∧ P.parseBits = 64 then
      match parseInt s with
      | some v => .ok v
      | none => .panic
    else .unmodelled
  | .bytes v =>
    if v.length = 0 then .ok 0
    else if v.length = 1 ∨ v.length = 2 ∨ v.length = 4 ∨ v.length = 8 then .ok (BitVec.ofNat 64 (getLE v))
    else .panic
  | _ => .panic

/-- `BodyToFloat()`, result as float64 bits -/
def bodyToFloat (P : Params) (b : GoVal) : Res (BitVec 64) :=
  match b with
  | .i64 _ => .unmodelled  -- float64(int64): rounding
  | .f64 v => .ok v
  | .str _ => .unmodelled  -- strconv.ParseFloat
  | .bytes v =>
    if v.length = 4 then .ok (widenOn P.canonNaN (BitVec.ofNat 32 (getLE v)))
    else if v.length = 8 then .ok (BitVec.ofNat 64 (getLE v))
    else .panic
  | _ => .panic

/-- `BodyToString()` -/
def bodyToString (P : Params) (b : GoVal) : Res Text :=
  match b with
  | .str s => .ok (.lit s)
  | .bytes v => .ok (.lit v)
  | .i64 v => if 2 ≤ P.fmtBase ∧ P.fmtBase ≤ 36 then .ok (.lit (formatInt P.fmtBase v.toInt)) else .panic
  | .f64 v => .ok (.fmtFloat v)
  | .msg => .unmodelled  -- protojson
  | .nil => .ok (.lit nilText)
  | _ => .unmodelled  -- fmt's %v of a value SetBody would have normalised

/-- `encodeInt64` / `encodeUint64`: the varint is written into a fixed scratch array -/
def encodeInto (bufLen : Nat) (enc : Bytes) : Res Bytes :=
  if enc.length ≤ bufLen then .ok enc else .panic

/-- `BodyToBytes()`: the wire form -/
def bodyToBytes (P : Params) (b : GoVal) : Res Bytes :=
  match b with
  | .str s => .ok s
  | .bytes v => .ok v
  | .i64 v => encodeInto P.varintBuf (putVarint v)
  | .f64 v => encodeInto P.uvarintBuf (putUvarint v)
  | .msg => .unmodelled  -- proto.Marshal
  | .nil => if P.bytesHasNil then .ok [] else .panic
  | _ => .panic

/-! ### packets -/

structure Packet where
  cmd : BitVec 32
  seq : BitVec 16
  typ : BitVec 8
  flg : BitVec 8
  node : BitVec 32
  body : GoVal
  refers : List (BitVec 32)
  /-- identity of the bound endpoint -/
  endpoint : Option Nat
deriving DecidableEq, Repr

def errBit (P : Params) : BitVec 8 := BitVec.ofNat 8 P.errFlag

/-- `New(command, seq, flag, body)`: the body is stored as given (no normalisation) -/
def mkNew (P : Params) (cmd : BitVec 32) (seq : BitVec 16) (flag : BitVec 8) (body : GoVal) : Packet :=
  { cmd := cmd, seq := seq, typ := BitVec.ofNat 8 P.ptypePacket, flg := flag, node := 0, body := body,
    refers := [], endpoint := none }

/-- `Errno()` -/
def errno (P : Params) (p : Packet) : BitVec 32 :=
  if p.flg &&& errBit P ≠ 0 then
    if P.errnoFromBody then
      match p.body with
      | .i64 v => v.setWidth 32
      | _ => 0
    else p.cmd
  else 0

/-- `SetErrno(ec)`: flag the packet and make the code its (int64) body -/
def setErrno (P : Params) (p : Packet) (ec : BitVec 32) : Packet :=
  { p with flg := p.flg ||| errBit P, body := .i64 (ec.signExtend 64) }

/-- `m.endpoint.SendPacket(pkt)`: which endpoint got which packet; a nil endpoint is a nil dereference -/
def sendOn (m : Packet) (pkt : Packet) : Res (Nat × Packet) :=
  match m.endpoint with
  | some e => .ok (e, pkt)
  | none => .panic

/-- `ReplyWith(command, body)` -/
def replyWith (P : Params) (m : Packet) (cmd : BitVec 32) (body : GoVal) : Res (Nat × Packet) :=
  let pkt := mkNew P cmd m.seq m.flg body
  sendOn m { pkt with typ := m.typ, node := m.node, refers := m.refers }

/-- `Reply(ack)`; `mid` is what the registry answers for the message (0 = not registered) -/
def reply (P : Params) (m : Packet) (mid : BitVec 32) : Res (Nat × Packet) :=
  replyWith P m (if mid = 0 then m.cmd else mid) .msg

/-- `RefuseWith(command, errno)` -/
def refuseWith (P : Params) (m : Packet) (cmd ec : BitVec 32) : Res (Nat × Packet) :=
  let pkt := mkNew P cmd m.seq (m.flg ||| errBit P) .nil
  sendOn m (setErrno P { pkt with typ := m.typ, node := m.node, refers := m.refers } ec)

/-- `Refuse(errno)`; `pair` is what the registry answers for the pairing ack id (0 = none) -/
def refuse (P : Params) (m : Packet) (pair ec : BitVec 32) : Res (Nat × Packet) :=
  refuseWith P m (if pair = 0 then m.cmd else pair) ec

/-! ### the receiver -/

/-- body of a freshly made packet after a codec unmarshalled a frame whose (decrypted, decompressed)
body bytes are `raw` and whose flag byte is `flag`: both codecs skip an empty body; otherwise the
error flag selects `binary.Varint` (its error result is ignored, like in the code). -/
def recvBody (P : Params) (flag : BitVec 8) (raw : Bytes) : GoVal :=
  match raw with
  | [] => .nil
  | _ => if flag &&& errBit P ≠ 0 then .i64 (varint raw).1 else .bytes raw

/-- what a receiver holds after `p` crossed a wire that delivers command, flag and body bytes intact
(the codecs' job, C01): `panic` when the sender cannot produce the wire form -/
def crossWire (P : Params) (p : Packet) : Res Packet :=
  match bodyToBytes P p.body with
  | .ok raw => .ok { cmd := p.cmd, seq := p.seq, typ := 0, flg := p.flg, node := 0,
                     body := recvBody P p.flg raw, refers := [], endpoint := none }
  | .panic => .panic
  | .unmodelled => .unmodelled

end Fatchoy.C07
