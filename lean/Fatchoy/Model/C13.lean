/-
Model of /repo/collections/lru/cache.go (C13): every method of `Cache`.  Core-only.

The pair (`container/list` recency list, `map[key]*list.Element` index) is modelled by one
association list `items`, newest first: the list is the recency order and a key's map entry is its
(first) occurrence.  `container/list`, the built-in map and the agreement of the two are modelled, not
verified (they are exercised by the correspondence run on every op).  Keys and values are `Nat`
(the harness uses string keys "0".."9…" — `Remove` takes a `string` — and int values).

`step` returns the new cache, the method's result and `left`: the entries that were handed to the
removal path, in the order the code calls `onEvicted` for them.  The callback log is `cbLog`: `left`
when a callback is installed, nothing otherwise.  `Purge` ranges over a Go map, so its callback order
is unspecified: the model emits newest-first and both sides of the comparison sort.
-/
namespace Fatchoy.C13

abbrev K := Nat
abbrev V := Nat

structure Cache where
  /-- `c.size`: `Resize` stores its argument unchecked, so it may be ≤ 0 after construction -/
  cap : Int
  /-- recency list, newest (front) first -/
  items : List (K × V)
  /-- `c.onEvicted != nil` -/
  cb : Bool
deriving Repr, DecidableEq

inductive Op
  | len | cap
  | contains (k : K) | get (k : K) | peek (k : K) | getOldest | keys
  | put (k : K) (v : V) | resize (n : Int) | remove (k : K) | removeOldest | purge
deriving Repr, DecidableEq

inductive Out
  | num (n : Int)                -- Len, Cap, Resize
  | bool (b : Bool)              -- Contains, Put, Remove
  | val (o : Option V)           -- Get, Peek: (value, ok)
  | entry (o : Option (K × V))   -- GetOldest, RemoveOldest: (key, value, ok)
  | keys (ks : List K)           -- Keys, oldest first
  | unit                         -- Purge
deriving Repr, DecidableEq

/-- `NewCache(size, onEvicted)`; `none` = the constructor panics ("cache capacity out of range") -/
def new (size : Int) (cb : Bool) : Option Cache :=
  if size ≤ 0 then none else some { cap := size, items := [], cb := cb }

/-- `c.items[key]` followed by `.Value.(*Entry).Value` -/
def lookup (items : List (K × V)) (k : K) : Option V :=
  (items.find? (fun e => e.1 == k)).map (·.2)

/-- `c.list.Remove(e); delete(c.items, key)` for the element of key `k` -/
def erase (items : List (K × V)) (k : K) : List (K × V) :=
  items.filter (fun e => e.1 != k)

/-- `removeOldest`: `c.list.Back()`, and `removeElement` of it when the list is not empty -/
def dropOldest (items : List (K × V)) : List (K × V) × List (K × V) :=
  match items.getLast? with
  | none => (items, [])
  | some e => (items.dropLast, [e])

/-- the loop of `Resize`: `n` calls of `removeOldest` -/
def evictN : Nat → List (K × V) → List (K × V) × List (K × V)
  | 0, l => (l, [])
  | n + 1, l =>
    let r1 := dropOldest l
    let r2 := evictN n r1.1
    (r2.1, r1.2 ++ r2.2)

/-- one method call: (cache after, result, entries handed to the removal path in callback order) -/
def step (c : Cache) : Op → Cache × Out × List (K × V)
  | .len => (c, .num c.items.length, [])
  | .cap => (c, .num c.cap, [])
  | .contains k => (c, .bool (lookup c.items k).isSome, [])
  | .get k =>
    match lookup c.items k with
    | some v => ({ c with items := (k, v) :: erase c.items k }, .val (some v), [])
    | none => (c, .val none, [])
  | .peek k => (c, .val (lookup c.items k), [])
  | .getOldest => (c, .entry c.items.getLast?, [])
  | .keys => (c, .keys (c.items.reverse.map (·.1)), [])
  | .put k v =>
    match lookup c.items k with
    | some _ => ({ c with items := (k, v) :: erase c.items k }, .bool false, [])
    | none =>
      let items' := (k, v) :: c.items
      if c.cap < (items'.length : Int) then
        let r := dropOldest items'
        ({ c with items := r.1 }, .bool true, r.2)
      else ({ c with items := items' }, .bool true, [])
  | .resize n =>
    let diff : Int := if (c.items.length : Int) - n < 0 then 0 else (c.items.length : Int) - n
    let r := evictN diff.toNat c.items
    ({ c with items := r.1, cap := n }, .num diff, r.2)
  | .remove k =>
    match lookup c.items k with
    | some v => ({ c with items := erase c.items k }, .bool true, [(k, v)])
    | none => (c, .bool false, [])
  | .removeOldest =>
    match c.items.getLast? with
    | some e => ({ c with items := c.items.dropLast }, .entry (some e), [e])
    | none => (c, .entry none, [])
  | .purge => ({ c with items := [] }, .unit, c.items)

/-- what `onEvicted` sees during a step that hands `left` to the removal path -/
def cbLog (c : Cache) (left : List (K × V)) : List (K × V) := if c.cb then left else []

/-- the cache after a sequence of calls -/
def run (c : Cache) (ops : List Op) : Cache := ops.foldl (fun c op => (step c op).1) c

/-- results and callback logs of a sequence of calls -/
def trace (c : Cache) : List Op → List (Out × List (K × V))
  | [] => []
  | op :: ops => let r := step c op; (r.2.1, cbLog c r.2.2) :: trace r.1 ops

end Fatchoy.C13
