/-
C12: the model parameters instantiated with the facts regenerated from collections/queue.
-/
import Fatchoy.Gen.C12
import Fatchoy.Model.C12
namespace Fatchoy.C12

/-- parameters regenerated from the source on every run -/
def params : Params :=
  { minCapacity := Gen.C12.minCapacity, growShift := Gen.C12.growShift, shrinkShift := Gen.C12.shrinkShift,
    firstSlice := Gen.C12.firstSliceSize, maxFirstSlice := Gen.C12.maxFirstSliceSize,
    maxInternalSlice := Gen.C12.maxInternalSliceSize, sliceVarsConst := Gen.C12.sliceVarsConst,
    pushShape := Gen.C12.pushShape, cqMethods := Gen.C12.cqMethods }

end Fatchoy.C12
