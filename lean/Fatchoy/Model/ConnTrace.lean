/-
Trace validation for the connection LTS (C03/C04): the harness linearises a run of the REAL TcpConn into a
sequence of *visible* events — call / return markers of SendPacket, Close, ForceClose, what the peer wrote
and read, what the consumers of the inbound and error channels received, the counters at the quiescent end —
and this file decides whether some execution of `Conn.step` explains it: visible events in the given
order, any internal steps (`hidden`) of the goroutines in between.  Depth-first search with a visited set
over (event index, model state); "lazy" order (the next visible event is tried before any internal step),
which finds the witness of a genuine trace almost without backtracking; a rejected trace exhausts the
reachable (state, index) pairs.  This is exploration of the model, not a proof.  Core + Std.HashSet only.
-/
import Fatchoy.Model.Conn
import Std.Data.HashSet
namespace Fatchoy.Conn

inductive Ev
  | go
  | scall (i : Nat) (p : Pkt) | sret (i : Nat) (r : SRes) | spark (i : Nat)
  | ccall (j : Nat) (g : Bool) | cret (j : Nat) (ok : Bool) | fpark
  | psend (x : In)
  | icall | iret (k : Nat) (p : Nat) | ecall | eret (k : Nat) (e : Err)
  | wgot (k : Nat) (p : Nat) | weof (k : Nat) | werr
  | stats (ps bs pr br : Nat) | quiet
deriving Repr, Inhabited

/-- a visible event: an environment action of the LTS, or an observation that must hold of the current state -/
def applyVisible (cfg : Cfg) (s : State) : Ev → Option State
  | .go => if s.st = .init then step cfg s .start else none
  | .scall i p => step cfg s (.sendCall i p)
  | .sret i r => if s.snd[i]? = some (.ret r) then some s else none
  | .spark i => match s.snd[i]? with
    | some (.send _) => some s
    | _ => none
  | .ccall j g => if s.cls.length = j then step cfg s (.closeCall g) else none
  | .cret j ok => match s.cls[j]? with
    | some ⟨_, .returned _⟩ => if ok then some s else none
    | _ => none
  | .fpark => match s.win with
    | some ⟨_, _, .clear⟩ => some s
    | _ => none
  | .psend x => step cfg s (.peerSend x)
  | .icall => if s.iwait then none else step cfg s .inbCall
  | .iret k p =>
    if !s.iwait && s.consumed.length == k + 1 && (s.consumed[k]?.map (·.id)) == some p then some s else none
  | .ecall => if s.ewait then none else step cfg s .errCall
  | .eret k e =>
    if !s.ewait && s.econsumed.length == k + 1 && s.econsumed[k]? == some e then some s else none
  | .wgot k p => if ((wire s)[k]?.map (·.id)) == some p then some s else none
  | .weof k => if s.writeShut && (wire s).length == k then some s else none
  | .werr => some s
  | .stats ps bs pr br =>
    if s.w = .exited ∧ s.r = .exited ∧ s.sentPkts = ps ∧ s.sentBytes = bs ∧ s.recvPkts = pr ∧ s.recvBytes = br
    then some s else none
  | .quiet => match s.w, s.r, s.win with
    | .exited, .exited, some ⟨_, _, .finished⟩ => some s
    | _, _, _ => none

/-- the internal steps that may happen between two visible events -/
def hidden (s : State) (timeouts : Bool) : List Action :=
  (List.range s.snd.length).map Action.snd ++ (List.range s.cls.length).map Action.cls ++
  [.win, .wRecv, .wDone, .wWrite true, .wWrite false, .wFlush, .wWgDone,
   .rArm, .rChk, .rFrame, .rPush, .rCheck, .rErr true, .rErr false, .rDrop, .rClose, .rWgDone, .rNil, .inbPop, .errPop] ++
  (if timeouts then [.rTimeout] else [])

structure Key where
  idx : Nat
  s : State
deriving BEq, Hashable

structure Search where
  seen : Std.HashSet Key := {}
  visited : Nat := 0
  deepest : Nat := 0
  budget : Nat

inductive Verdict | accept (visited : Nat) | reject (deepest : Nat) (visited : Nat) | budget (deepest : Nat)
deriving Repr

partial def dfs (cfg : Cfg) (evs : Array Ev) (timeouts : Bool) (s : State) (i : Nat) : StateM Search Bool := do
  if i ≥ evs.size then return true
  let st ← get
  if st.visited ≥ st.budget then return false
  let key : Key := ⟨i, s⟩
  if st.seen.contains key then return false
  set { st with seen := st.seen.insert key, visited := st.visited + 1, deepest := max st.deepest i }
  match applyVisible cfg s evs[i]! with
  | some s' => if (← dfs cfg evs timeouts s' (i + 1)) then return true
  | none => pure ()
  for a in hidden s timeouts do
    match step cfg s a with
    | some s' => if (← dfs cfg evs timeouts s' i) then return true
    | none => pure ()
  return false

def validate (cfg : Cfg) (evs : Array Ev) (timeouts : Bool) (budget : Nat) : Verdict :=
  let (ok, st) := (dfs cfg evs timeouts (init cfg) 0).run { budget := budget }
  if ok then .accept st.visited
  else if st.visited ≥ st.budget then .budget st.deepest
  else .reject st.deepest st.visited

end Fatchoy.Conn
