/-
Model of /repo/collections/zset (C11), in two layers.  Core-only.

Layer L — `zskiplist.go` abstracted to its content: the skip list *is* the list of its nodes in
level-0 order; every exported `ZSkipList` method is specified on that list the way its level-0 walk
proceeds (`takeWhile`/`dropWhile` with the code's comparison, not a filter: nothing here assumes the
list is sorted).  The tower/span/pointer structure (tower heights, span arithmetic, backward links) is not
in this layer: it is the structural model S (Model/C11S.lean), which is proved to keep its invariant and
to refine every function of L for every tower height (Props/C11.lean, block "the structural skip
list S"); the driver runs S and cross-checks L on its abstraction.

Layer Z — `zset.go`, structurally, on top of L: `Add` (delete + re-insert on a score change), `Remove`,
index normalisation of `GetRange`/`RemoveRangeByRank` (negative indices, clamping), `Count` via the two
ranks, the `GetRangeByScore` walks, the `dict` kept in step; every nil dereference the code could run
into is the explicit outcome `panic`.

Scores are `int64` in the code and `Int` here (only compared, never added).  Members are
`collections.Comparable`; here `Nat` with the natural order standing for `CompareTo`.
-/
namespace Fatchoy.C11

structure Node where
  score : Int
  ele : Nat
deriving Repr, DecidableEq

/-- the walk condition of Insert/Delete: `fwd.Score < score || (fwd.Score == score && fwd.Ele.CompareTo(ele) < 0)` -/
def Node.lt (a b : Node) : Bool := a.score < b.score || (a.score == b.score && a.ele < b.ele)

/-- the walk condition of GetRank: `… CompareTo(ele) <= 0` -/
def Node.le (a b : Node) : Bool := a.score < b.score || (a.score == b.score && a.ele ≤ b.ele)

/-- content of a skip list in level-0 order -/
abbrev SL := List Node

namespace L

/-- `Insert(score, ele)`: walk past every node that is before (score, ele), link the new node there.
  The code does not look for an existing equal node ("we assume the element is not already inside"). -/
def insert (l : SL) (score : Int) (ele : Nat) : SL :=
  l.takeWhile (fun n => n.lt ⟨score, ele⟩) ++ ⟨score, ele⟩ :: l.dropWhile (fun n => n.lt ⟨score, ele⟩)

/-- `Delete(score, ele)`: the node after the walk is unlinked iff it has this score and this member;
  result: (list after, the node returned — `none` = nil) -/
def delete (l : SL) (score : Int) (ele : Nat) : SL × Option Node :=
  match l.dropWhile (fun n => n.lt ⟨score, ele⟩) with
  | [] => (l, none)
  | x :: rest =>
    if score == x.score && x.ele == ele then (l.takeWhile (fun n => n.lt ⟨score, ele⟩) ++ rest, some x)
    else (l, none)

/-- `GetRank(score, ele)`, 1-based, 0 = not found: walk while the next node is ≤ (score, ele); the node
  reached answers iff its member is `ele` (the head sentinel has no member).
  Contract (the code's result depends on tower heights otherwise, see `RankContract`): no node with
  member `ele` has a smaller score. -/
def getRank (l : SL) (score : Int) (ele : Nat) : Nat :=
  let pre := l.takeWhile (fun n => n.le ⟨score, ele⟩)
  match pre.getLast? with
  | some x => if x.ele == ele then pre.length else 0
  | none => 0

/-- when `getRank` is a function of the content -/
def RankContract (l : SL) (score : Int) (ele : Nat) : Prop := ∀ n ∈ l, n.ele = ele → score ≤ n.score

inductive ByRank
  | head            -- rank 0 answers the head sentinel (no member)
  | node (n : Node)
  | none            -- nil
deriving Repr, DecidableEq

/-- `GetElementByRank(rank)`, 1-based -/
def getElementByRank (l : SL) (rank : Int) : ByRank :=
  if rank < 0 then .none
  else if rank == 0 then .head
  else match l[rank.toNat - 1]? with
    | some n => .node n
    | none => .none

/-- `IsInRange(min, max)` -/
def isInRange (l : SL) (min max : Int) : Bool :=
  if min > max then false
  else match l.getLast? with
    | none => false
    | some t =>
      if t.score < min then false
      else match l.head? with
        | none => false
        | some h => if h.score > max then false else true

/-- `FirstInRange(min, max)` -/
def firstInRange (l : SL) (min max : Int) : Option Node :=
  if !isInRange l min max then none
  else match l.dropWhile (fun n => n.score < min) with
    | [] => none
    | x :: _ => if x.score > max then none else some x

/-- the walk of `LastInRange` once it stands on a node: forward while the next score is ≤ max -/
def walkLE (cur : Node) : List Node → Int → Node
  | [], _ => cur
  | n :: rest, max => if n.score ≤ max then walkLE n rest max else cur

/-- `LastInRange(min, max)`.  `IsInRange` has established that the first node's score is ≤ max
  (`isInRange_first`), so the walk from the head sentinel always takes its first step: the model starts
  on the first node and has no case for "stopped on the sentinel". -/
def lastInRange (l : SL) (min max : Int) : Option Node :=
  if !isInRange l min max then none
  else match l with
    | [] => none
    | h :: rest =>
      let x := walkLE h rest max
      if x.score < min then none else some x

/-- `DeleteRangeByScore(min, max, dict)`: walk past scores < min, then unlink while the score is ≤ max.
  Result: (list after, unlinked nodes in order); the caller's dict loses their members. -/
def deleteRangeByScore (l : SL) (min max : Int) : SL × List Node :=
  let rest := l.dropWhile (fun n => n.score < min)
  (l.takeWhile (fun n => n.score < min) ++ rest.dropWhile (fun n => n.score ≤ max),
   rest.takeWhile (fun n => n.score ≤ max))

/-- `DeleteRangeByRank(start, end, dict)`, 1-based inclusive: walk while `traversed + 1 < start`, then
  unlink while `traversed ≤ end` -/
def deleteRangeByRank (l : SL) (start stop : Int) : SL × List Node :=
  let pre := l.take (start - 1).toNat
  let rest := l.drop (start - 1).toNat
  let traversed : Int := pre.length + 1
  let cnt := (stop - traversed + 1).toNat
  (pre ++ rest.drop cnt, rest.take cnt)

end L

/-! ### layer Z: zset.go -/

/-- the Go map `dict`: unordered, one pair per member -/
abbrev Dict := List (Nat × Int)

def dget (d : Dict) (e : Nat) : Option Int := (d.find? (fun p => p.1 == e)).map (·.2)
def ddel (d : Dict) (e : Nat) : Dict := d.filter (fun p => p.1 != e)
def dset (d : Dict) (e : Nat) (s : Int) : Dict := (e, s) :: ddel d e
/-- `delete(dict, x.Ele)` for every unlinked node -/
def ddelAll (d : Dict) (ns : List Node) : Dict := ns.foldl (fun d n => ddel d n.ele) d

structure ZSet where
  dict : Dict
  zsl : SL
deriving Repr, DecidableEq

def ZSet.empty : ZSet := { dict := [], zsl := [] }

inductive Op
  | len
  | add (e : Nat) (score : Int)
  | remove (e : Nat)
  | removeRangeByScore (min max : Int)
  | removeRangeByRank (start stop : Int)
  | count (min max : Int)
  | getRank (e : Nat) (reverse : Bool)
  | getScore (e : Nat)
  | getRange (start stop : Int) (reverse : Bool)
  | getRangeByScore (min max : Int) (reverse : Bool)
deriving Repr, DecidableEq

inductive Out
  | int (n : Int)
  | bool (b : Bool)
  | eles (l : List Nat)
  | panic              -- nil pointer dereference in the Go code
deriving Repr, DecidableEq

/-- `if i < 0 { i = llen + i }`: a negative index counts from the end -/
def fromEnd (llen i : Int) : Int := if i < 0 then llen + i else i

/-- the clamping part of the index normalisation: `none` = the early return, `some (start, stop)` =
  0-based inclusive bounds with `0 ≤ start ≤ stop < llen` -/
def clampRange (llen start stop : Int) : Option (Int × Int) :=
  let start := if start < 0 then 0 else start
  if start > stop || start ≥ llen then none
  else some (start, if stop ≥ llen then llen - 1 else stop)

/-- index normalisation shared by `GetRange` and `RemoveRangeByRank` -/
def normRange (llen start stop : Int) : Option (Int × Int) :=
  clampRange llen (fromEnd llen start) (fromEnd llen stop)

/-- `n` steps of `node = node.level[0].forward` (or `.backward` on the reversed prefix), collecting
  members; running off the list is a nil dereference -/
def walk : List Node → Nat → Option (List Nat)
  | _, 0 => some []
  | [], _ + 1 => none
  | x :: rest, n + 1 => (walk rest n).map (x.ele :: ·)

/-- `Count(min, max)` on the list: first node in range, its rank, last node in range, its rank -/
def countRange (l : SL) (min max : Int) : Int :=
  if min > max then 0
  else match L.firstInRange l min max with
    | none => 0
    | some zn =>
      let llen : Int := l.length
      let rank : Int := L.getRank l zn.score zn.ele
      let count := llen - (rank - 1)
      match L.lastInRange l min max with
      | some zn2 =>
        let rank2 : Int := L.getRank l zn2.score zn2.ele
        count - (llen - rank2)
      | none => count

/-- `GetRange(start, end, reverse)` on the list; `none` = a nil dereference during the walk -/
def rangeByRank (l : SL) (start stop : Int) (reverse : Bool) : Option (List Nat) :=
  let llen : Int := l.length
  match normRange llen start stop with
  | none => some []
  | some (a, b) =>
    let rangeLen := (b - a + 1).toNat
    if reverse then
      -- node = tail, or GetElementByRank(llen - start); then `backward` links
      let from? : Option (List Node) :=
        if a > 0 then
          match L.getElementByRank l (llen - a) with
          | .node _ => some (l.take (llen - a).toNat).reverse
          | _ => none
        else some l.reverse
      from?.bind (walk · rangeLen)
    else
      -- node = first, or GetElementByRank(start + 1); then level-0 `forward` links
      let from? : Option (List Node) :=
        if a > 0 then
          match L.getElementByRank l (a + 1) with
          | .node _ => some (l.drop a.toNat)
          | _ => none
        else some l
      from?.bind (walk · rangeLen)

/-- `GetRangeByScore(min, max, reverse)` on the list -/
def rangeByScore (l : SL) (min max : Int) (reverse : Bool) : List Nat :=
  if min > max then []
  else if reverse then
    match L.lastInRange l min max with
    | none => []
    | some _ =>
      -- from the last node with score ≤ max backwards, until a score < min
      (((l.takeWhile (fun n => n.score ≤ max)).reverse).takeWhile (fun n => !(n.score < min))).map (·.ele)
  else
    match L.firstInRange l min max with
    | none => []
    | some _ =>
      -- from the first node with score ≥ min forwards, until a score > max
      ((l.dropWhile (fun n => n.score < min)).takeWhile (fun n => !(n.score > max))).map (·.ele)

def step (z : ZSet) : Op → ZSet × Out
  | .len => (z, .int z.zsl.length)
  | .add e score =>
    match dget z.dict e with
    | some cur =>
      if cur != score then
        match L.delete z.zsl cur e with
        | (l1, some znode) =>
          ({ dict := dset z.dict e score, zsl := L.insert l1 score znode.ele }, .bool true)
        | (_, none) => (z, .panic)   -- `znode.Ele` on a nil node
      else (z, .bool true)
    | none => ({ dict := dset z.dict e score, zsl := L.insert z.zsl score e }, .bool true)
  | .remove e =>
    match dget z.dict e with
    | some score => ({ dict := ddel z.dict e, zsl := (L.delete z.zsl score e).1 }, .bool true)
    | none => (z, .bool false)
  | .removeRangeByScore min max =>
    if min > max then (z, .int 0)
    else
      let r := L.deleteRangeByScore z.zsl min max
      ({ dict := ddelAll z.dict r.2, zsl := r.1 }, .int r.2.length)
  | .removeRangeByRank start stop =>
    match normRange z.zsl.length start stop with
    | none => (z, .int 0)
    | some (a, b) =>
      let r := L.deleteRangeByRank z.zsl (a + 1) (b + 1)
      ({ dict := ddelAll z.dict r.2, zsl := r.1 }, .int r.2.length)
  | .count min max => (z, .int (countRange z.zsl min max))
  | .getRank e reverse =>
    match dget z.dict e with
    | some score =>
      let llen : Int := z.zsl.length
      let rank : Int := L.getRank z.zsl score e
      (z, .int (if reverse then llen - rank else rank - 1))
    | none => (z, .int (-1))
  | .getScore e => (z, .int ((dget z.dict e).getD 0))
  | .getRange start stop reverse =>
    match rangeByRank z.zsl start stop reverse with
    | some es => (z, .eles es)
    | none => (z, .panic)
  | .getRangeByScore min max reverse => (z, .eles (rangeByScore z.zsl min max reverse))

def run (z : ZSet) (ops : List Op) : ZSet := ops.foldl (fun z op => (step z op).1) z

def trace (z : ZSet) : List Op → List Out
  | [] => []
  | op :: ops => let r := step z op; r.2 :: trace r.1 ops

end Fatchoy.C11
