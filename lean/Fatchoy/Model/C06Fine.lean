/-
C06: the two timer schedulers with the worker's `tick` split at the points where it takes and releases
`guard` — so that client calls can fall BETWEEN two nodes of one expiry pass, and between a node's
decision under the guard and its channel send.  Core-only.

Wheel (`expireNear`, hhwheel_timer.go): detach the near bucket; for every node of the detached chain:
[guard] cancelled → drop it; otherwise a one-shot timer leaves the table [/guard]; then `t.C <- node.r`
and a periodic timer is re-armed (worker-private).  `tick` = pass; counters + `shiftWheels`; pass.
Heap (`trigger` + `tick`, timerqueue.go): for the heap's top while it is due: [guard] cancelled → pop;
periodic → re-arm in place; one-shot → pop and leave the table [/guard]; AFTER the loop the decided
nodes are sent one by one.

The steps below are exactly those guarded regions and sends; everything the worker does outside the
guard and besides the sends (unchain, re-arm, counters, shiftWheels, heap sifting) touches only state no
client reads, so it is merged into the neighbouring step.  Schedule points of the real code (hook
`verifYield`, tag verif): "decide id" = before a guarded region, "send id" = before a send.
The atomic `tick` of Model/C05Sched.lean is this sequence of steps run without interruption
(Lemmas/C06Fine.lean: `WF.fine_tick`, `HF.fine_tick`).
-/
import Fatchoy.Model.C05Sched
namespace Fatchoy.C05

/-- the steps of the fine-grained transition systems -/
inductive FAct
  /-- a client call (after / every / cancel; `clock n` for the heap's clients): possible at ANY time -/
  | cl (a : Act)
  /-- the worker's `select` cases: only between ticks -/
  | add
  | del
  /-- ticker case: enter `tick` -/
  | begin
  /-- the worker's next step inside `tick` -/
  | next
deriving DecidableEq, Repr

def Act.isClient : Act → Bool
  | .after _ | .every _ | .cancel _ | .clock _ => true
  | _ => false

/-! ## wheel -/

/-- where the wheel's worker is -/
inductive WPc
  | idle
  /-- in `expireNear` (`second`: the pass after the increment); `chain`: detached nodes not yet decided -/
  | pass (second : Bool) (chain : List WNode)
  /-- node `n` was decided for delivery and the guard released; before `t.C <- n.r` -/
  | send (second : Bool) (n : WNode) (chain : List WNode)
deriving DecidableEq, Repr

structure WF where
  s : WS
  pc : WPc
deriving Repr

namespace WF

def init (off time : Nat) : WF := { s := WS.init off time, pc := .idle }

def lift (x : WF) : Res WS → Res WF
  | .ok s o => .ok { x with s := s } o
  | .blocked => .blocked
  | .panic => .panic

/-- detach the near bucket that comes up (`replaceInit`) -/
def detach (G : Geom) (x : WF) (second : Bool) : WF :=
  let c := x.s.w.cur G % G.nearSize
  { s := { x.s with w := { x.s.w with nodes := x.s.w.nodes.filter (fun n => !Wheel.inBucket 0 c n) } },
    pc := .pass second (x.s.w.nodes.filter (Wheel.inBucket 0 c)) }

def step (G : Geom) (x : WF) : FAct → Res WF
  | .cl a => if a.isClient then x.lift (WS.step G x.s a) else .blocked
  | .add => match x.pc with
    | .idle => x.lift (WS.step G x.s .add)
    | _ => .blocked
  | .del => match x.pc with
    | .idle => x.lift (WS.step G x.s .del)
    | _ => .blocked
  | .begin => match x.pc with
    | .idle => .ok (x.detach G false) .done
    | _ => .blocked
  | .next => match x.pc with
    | .idle => .blocked
    | .pass b (n :: ns) =>
      -- the guarded region of expireNear
      if n.id ∈ x.s.f.cancelled then .ok { x with pc := .pass b ns } .done
      else if n.period > 0 then .ok { x with pc := .send b n ns } .done
      else .ok { s := { x.s with f := x.s.f.drop n.id }, pc := .send b n ns } .done
    | .send b n ns =>
      -- t.C <- node.r; re-arm
      let f' := x.s.f.deliver x.s.w.time n.id n.deadline
      if n.period > 0 then
        .ok { s := { w := { x.s.w with nodes := x.s.w.nodes ++ [x.s.w.link G { n with deadline := x.s.w.time + n.period }] },
                     f := f' },
              pc := .pass b ns } .done
      else .ok { s := { x.s with f := f' }, pc := .pass b ns } .done
    | .pass false [] =>
      -- currTick++, tickTime++, shiftWheels(), second expireNear: detach
      .ok (({ x with s := { x.s with w := Wheel.shift G { x.s.w with time := x.s.w.time + 1 } } } : WF).detach G true) .done
    | .pass true [] => .ok { x with pc := .idle } .done

end WF

/-! ## heap -/

/-- where the heap's worker is -/
inductive HPc
  | idle
  /-- in the loop of `trigger(now)`; `exp`: (id, deadline) of the nodes decided for delivery so far -/
  | trig (now maxId : Nat) (exp : List (Nat × Nat))
  /-- in the send loop of `tick` -/
  | sends (now : Nat) (rest : List (Nat × Nat))
deriving DecidableEq, Repr

structure HF where
  s : HS
  pc : HPc
deriving Repr

namespace HF

def init (time : Nat) : HF := { s := HS.init time, pc := .idle }

def lift (x : HF) : Res HS → Res HF
  | .ok s o => .ok { x with s := s } o
  | .blocked => .blocked
  | .panic => .panic

def step (G : Geom) (x : HF) : FAct → Res HF
  | .cl a => if a.isClient then x.lift (HS.step G x.s a) else .blocked
  | .add => match x.pc with
    | .idle => x.lift (HS.step G x.s .add)
    | _ => .blocked
  | .del => match x.pc with
    | .idle => x.lift (HS.step G x.s .del)
    | _ => .blocked
  | .begin => match x.pc with
    | .idle => .ok { x with pc := .trig x.s.now x.s.f.nextId [] } .done
    | _ => .blocked
  | .next => match x.pc with
    | .idle => .blocked
    | .trig now maxId exp =>
      match x.s.heap with
      | [] => .ok { x with pc := .sends now exp } .done
      | n :: rest =>
        if now < n.deadline then .ok { x with pc := .sends now exp } .done
        else if n.id > maxId then .panic          -- the `continue` that spins forever
        -- the guarded region of trigger
        else if n.id ∈ x.s.f.cancelled then .ok { x with s := { x.s with heap := rest } } .done
        else if n.period > 0 then
          .ok { s := { x.s with heap := hinsert { n with deadline := now + n.period } rest },
                pc := .trig now maxId (exp ++ [(n.id, n.deadline)]) } .done
        else .ok { s := { x.s with heap := rest, f := x.s.f.drop n.id },
                   pc := .trig now maxId (exp ++ [(n.id, n.deadline)]) } .done
    | .sends now (p :: rest) =>
      .ok { s := { x.s with f := x.s.f.deliver now p.1 p.2 }, pc := .sends now rest } .done
    | .sends _ [] => .ok { x with pc := .idle } .done

end HF
end Fatchoy.C05
