/-
Model of /repo/qnet/buffer.go (C19): the typed little-endian accessors of `qnet.Buffer`.
Core-only. The buffer is the list of its unread bytes. A value travels as the unsigned bit pattern
of its type (a `Nat`): two's complement for the signed kinds, the IEEE-754 bits for the floats, 0/1
for bool. Which byte counts each `Write<T>` appends and each `Read<T>`/`Peek<T>` asks for is *not*
written here: it is the table regenerated from the method bodies into `Gen/C19.lean`.
-/
import Fatchoy.Gen.C19
namespace Fatchoy.C19

/-- the thirteen typed accessors, in the row order of the regenerated tables -/
inductive Ty where
  | bool | u8 | i8 | u16 | i16 | u32 | i32 | u64 | i64 | uint | int | f32 | f64
deriving DecidableEq, Repr

def Ty.idx : Ty → Nat
  | .bool => 0 | .u8 => 1 | .i8 => 2 | .u16 => 3 | .i16 => 4 | .u32 => 5 | .i32 => 6
  | .u64 => 7 | .i64 => 8 | .uint => 9 | .int => 10 | .f32 => 11 | .f64 => 12

def Ty.all : List Ty :=
  [.bool, .u8, .i8, .u16, .i16, .u32, .i32, .u64, .i64, .uint, .int, .f32, .f64]

/-- the names used by the source (suffix of `Read*`/`Peek*`) and by the line protocol -/
def Ty.name : Ty → String
  | .bool => "Bool" | .u8 => "Uint8" | .i8 => "Int8" | .u16 => "Uint16" | .i16 => "Int16"
  | .u32 => "Uint32" | .i32 => "Int32" | .u64 => "Uint64" | .i64 => "Int64" | .uint => "Uint"
  | .int => "Int" | .f32 => "Float32" | .f64 => "Float64"

def Ty.ofName? (s : String) : Option Ty := Ty.all.find? (fun t => t.name == s)

structure Params where
  /-- bytes of the platform word (`uint`/`int`): 8 when `is64Bit`, else 4 -/
  word : Nat
  /-- row names of the tables, as extracted -/
  names : List String
  /-- per type: the byte counts `Write<T>` appends, in order (the code delegates to fixed-width writers) -/
  wr : List (List Nat)
  /-- per type: how many bytes `Read<T>` asks the buffer for -/
  rd : List Nat
  /-- per type: how many bytes `Peek<T>` insists on and decodes -/
  pk : List Nat
deriving Repr, DecidableEq

/-- the tables of the code path selected by the platform constant -/
def mkParams (is64 : Bool) : Params :=
  if is64 then { word := 8, names := Gen.C19.typeNames, wr := Gen.C19.wr64, rd := Gen.C19.rd64, pk := Gen.C19.pk64 }
  else { word := 4, names := Gen.C19.typeNames, wr := Gen.C19.wr32, rd := Gen.C19.rd32, pk := Gen.C19.pk32 }

/-- parameters regenerated from the source on every run, for the platform of the run -/
def params : Params := mkParams Gen.C19.is64Bit

abbrev Buf := List UInt8

/-- `binary.LittleEndian.PutUint<8n>(tmp[:], T(v))`: the `n` low-order bytes of `v`, least significant first -/
def putLE : Nat → Nat → List UInt8
  | 0, _ => []
  | n + 1, v => UInt8.ofNat (v % 256) :: putLE n (v / 256)

/-- `binary.LittleEndian.Uint<8n>` of the given bytes -/
def getLE : List UInt8 → Nat
  | [] => 0
  | b :: bs => b.toNat + 256 * getLE bs

/-- value → bit pattern handed to the fixed-width writer (`WriteBool` writes 1 for true, 0 for false) -/
def enc (t : Ty) (v : Nat) : Nat :=
  match t with
  | .bool => if v = 0 then 0 else 1
  | _ => v

/-- raw little-endian value → result (`ReadBool`/`PeekBool` are `ReadInt8() != 0`) -/
def dec (t : Ty) (raw : Nat) : Nat :=
  match t with
  | .bool => if raw = 0 then 0 else 1
  | _ => raw

/-- `Write<T>(v)`: every fixed-width writer the method reaches appends its bytes -/
def write (P : Params) (b : Buf) (t : Ty) (v : Nat) : Buf :=
  b ++ (P.wr.getD t.idx []).flatMap (fun w => putLE w (enc t v))

inductive Err where
  /-- `panic(io.EOF)`: `bytes.Buffer.Read`/`ReadByte` on an empty buffer -/
  | eof
  /-- `panic(ErrBufferOutOfRange)` of the peekers -/
  | range
deriving DecidableEq, Repr

/-- `Read<T>()`: `bytes.Buffer.Read(tmp[:n])` fails only on an *empty* buffer; on a short one it
copies what is there into the zeroed array, so the missing high bytes read as 0 and the buffer is
drained. -/
def read (P : Params) (b : Buf) (t : Ty) : Except Err (Nat × Buf) :=
  let n := P.rd.getD t.idx 0
  if b.isEmpty then .error .eof else .ok (dec t (getLE (b.take n)), b.drop n)

/-- `Peek<T>()`: panics unless `n` bytes are unread; consumes nothing (it only looks at `Bytes()`) -/
def peek (P : Params) (b : Buf) (t : Ty) : Except Err Nat :=
  let n := P.pk.getD t.idx 0
  if b.length < n then .error .range else .ok (dec t (getLE (b.take n)))

/-- write a list of typed values in order -/
def writeAll (P : Params) : Buf → List (Ty × Nat) → Buf
  | b, [] => b
  | b, (t, v) :: vs => writeAll P (write P b t v) vs

/-- read a list of types in order; the first panic aborts -/
def readAll (P : Params) : Buf → List Ty → Except Err (List Nat × Buf)
  | b, [] => .ok ([], b)
  | b, t :: ts =>
    match read P b t with
    | .error e => .error e
    | .ok (v, b') =>
      match readAll P b' ts with
      | .error e => .error e
      | .ok (vs, b'') => .ok (v :: vs, b'')

end Fatchoy.C19
