import Fatchoy.Drv.C20

def main (args : List String) : IO UInt32 := do
  match args with
  | ["C20"] => Fatchoy.C20.drvMain; return 0
  | _ => IO.eprintln "usage: modeldrv <property id>   (ops on stdin, one answer per line on stdout)"; return 2
